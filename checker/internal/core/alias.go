package core

import (
	"encoding/json"
	"fmt"
	"go/ast"
	"go/types"
	"os"
	"regexp"
	"sort"
	"strings"

	"golang.org/x/tools/go/packages"
	"golang.org/x/tools/go/ssa"

	"wharfverif/checker/internal/inl"
)

// The reference inventory records, for the tree the rules were written
// against, every function (signature and a fingerprint of what its body
// mentions), every package-level type (fields) and every package-level variable
// and constant of the module. On a later tree it serves two purposes:
//
//   - a function that is not in it is a new helper and is expanded into its
//     callers (package inl);
//   - an unexported name that is in it but has disappeared, while a new name
//     with the same shape has appeared, was renamed: the rules keep addressing
//     it by the name they know (Aliases).

// Inventory is the content of baseline_inventory.json.
type Inventory struct {
	Funcs map[string]InvFunc `json:"funcs"` // "pkgpath Recv.Name" / "pkgpath Name"
	Types map[string]InvType `json:"types"` // "pkgpath Name"
	Vars  map[string]string  `json:"vars"`  // "pkgpath Name" -> type (package-level vars and consts)
	// Lits lists, per package, the local names that function literals are bound to (name := func...): a literal
	// bound to a name that is not listed is new and, when it is only ever called, expanded into its callers
	Lits map[string][]string `json:"lits,omitempty"`
}

type InvFunc struct {
	Sig string   `json:"sig"`
	FP  []string `json:"fp"`
}

type InvType struct {
	Under  string      `json:"under"`
	Fields [][2]string `json:"fields,omitempty"`
}

// Aliases maps the names of a later tree back to inventory names.
type Aliases struct {
	TypeOld  map[string]string // "pkgpath NewName" -> OldName
	TypeNew  map[string]string // "pkgpath OldName" -> NewName
	FuncOld  map[string]string // new function key -> old function key
	FuncNew  map[string]string // old function key -> new function key
	FieldOld map[string]string // "pkgpath OldTypeName.newField" -> oldField
	VarOld   map[string]string // "pkgpath NewName" -> OldName
	VarNew   map[string]string // "pkgpath OldName" -> NewName
	Known    map[string]bool   // current function keys that are inventory functions (possibly renamed)
	Notes    []string
}

func qual(p *types.Package) string { return p.Path() }

func sigString(sig *types.Signature) string {
	var b strings.Builder
	b.WriteString("func(")
	for i := 0; i < sig.Params().Len(); i++ {
		if i > 0 {
			b.WriteString(", ")
		}
		t := sig.Params().At(i).Type()
		if sig.Variadic() && i == sig.Params().Len()-1 {
			b.WriteString("..." + types.TypeString(t.(*types.Slice).Elem(), qual))
		} else {
			b.WriteString(types.TypeString(t, qual))
		}
	}
	b.WriteString(")")
	for i := 0; i < sig.Results().Len(); i++ {
		b.WriteString(" " + types.TypeString(sig.Results().At(i).Type(), qual))
	}
	return b.String()
}

func fingerprint(d *ast.FuncDecl) []string {
	set := map[string]bool{}
	ast.Inspect(d.Body, func(n ast.Node) bool {
		switch x := n.(type) {
		case *ast.SelectorExpr:
			set["."+x.Sel.Name] = true
		case *ast.CallExpr:
			if id, ok := x.Fun.(*ast.Ident); ok {
				set[id.Name+"()"] = true
			}
		case *ast.BasicLit:
			if len(x.Value) > 3 && len(x.Value) < 60 {
				set[x.Value] = true
			}
		}
		return true
	})
	var out []string
	for k := range set {
		out = append(out, k)
	}
	sort.Strings(out)
	return out
}

// BuildInventory describes the module packages of the loaded program.
func BuildInventory(pkgs []*packages.Package) *Inventory {
	inv := &Inventory{Funcs: map[string]InvFunc{}, Types: map[string]InvType{}, Vars: map[string]string{}}
	for _, pk := range pkgs {
		if !strings.HasPrefix(pk.PkgPath, Mod) {
			continue
		}
		for _, f := range pk.Syntax {
			for _, d := range f.Decls {
				fd, ok := d.(*ast.FuncDecl)
				if !ok || fd.Body == nil {
					continue
				}
				obj, _ := pk.TypesInfo.Defs[fd.Name].(*types.Func)
				if obj == nil {
					continue
				}
				inv.Funcs[inl.FuncKey(pk.PkgPath, fd)] = InvFunc{Sig: sigString(obj.Type().(*types.Signature)), FP: fingerprint(fd)}
				ast.Inspect(fd.Body, func(x ast.Node) bool {
					if as, ok := x.(*ast.AssignStmt); ok && len(as.Lhs) == 1 && len(as.Rhs) == 1 {
						if id, ok := as.Lhs[0].(*ast.Ident); ok {
							if _, isLit := as.Rhs[0].(*ast.FuncLit); isLit {
								if inv.Lits == nil {
									inv.Lits = map[string][]string{}
								}
								inv.Lits[pk.PkgPath] = append(inv.Lits[pk.PkgPath], id.Name)
							}
						}
					}
					return true
				})
			}
		}
		sc := pk.Types.Scope()
		for _, name := range sc.Names() {
			switch o := sc.Lookup(name).(type) {
			case *types.TypeName:
				it := InvType{Under: "other:" + types.TypeString(o.Type().Underlying(), qual)}
				if st, ok := o.Type().Underlying().(*types.Struct); ok {
					it.Under = "struct"
					for i := 0; i < st.NumFields(); i++ {
						it.Fields = append(it.Fields, [2]string{st.Field(i).Name(), types.TypeString(st.Field(i).Type(), qual)})
					}
				} else if _, ok := o.Type().Underlying().(*types.Interface); ok {
					it.Under = "interface"
				}
				inv.Types[pk.PkgPath+" "+name] = it
			case *types.Var:
				inv.Vars[pk.PkgPath+" "+name] = types.TypeString(o.Type(), qual)
			case *types.Const:
				inv.Vars[pk.PkgPath+" "+name] = "const " + types.TypeString(o.Type(), qual)
			}
		}
	}
	for k, v := range inv.Lits {
		sort.Strings(v)
		out := v[:0]
		for i, x := range v {
			if i == 0 || x != v[i-1] {
				out = append(out, x)
			}
		}
		inv.Lits[k] = out
	}
	return inv
}

// KnownLits turns the inventory's list of literal names into the form Normalize takes; nil when the inventory
// has none (an inventory written before literals were listed: nothing is expanded then).
func (inv *Inventory) KnownLits() map[string]map[string]bool {
	if inv == nil || inv.Lits == nil {
		return nil
	}
	out := map[string]map[string]bool{}
	for k, v := range inv.Lits {
		out[k] = map[string]bool{}
		for _, x := range v {
			out[k][x] = true
		}
	}
	return out
}

// ReadInventoryJSON reads baseline_inventory.json.
func ReadInventoryJSON(file string) (*Inventory, error) {
	b, err := os.ReadFile(file)
	if err != nil {
		return nil, err
	}
	inv := &Inventory{}
	if err := json.Unmarshal(b, inv); err != nil {
		return nil, err
	}
	if len(inv.Funcs) < 100 {
		return nil, fmt.Errorf("%s lists %d functions, expected several hundred", file, len(inv.Funcs))
	}
	return inv, nil
}

func jaccard(a, b []string) float64 {
	if len(a) == 0 && len(b) == 0 {
		return 1
	}
	set := map[string]bool{}
	for _, x := range a {
		set[x] = true
	}
	inter := 0
	for _, x := range b {
		if set[x] {
			inter++
		}
	}
	union := len(set)
	for _, x := range b {
		if !set[x] {
			union++
		}
	}
	if union == 0 {
		return 0
	}
	return float64(inter) / float64(union)
}

func isExported(name string) bool { return ast.IsExported(name) }

// InferAliases compares the inventory with the current tree.
func InferAliases(inv *Inventory, cur *Inventory) *Aliases {
	al := &Aliases{TypeOld: map[string]string{}, TypeNew: map[string]string{}, FuncOld: map[string]string{}, FuncNew: map[string]string{},
		FieldOld: map[string]string{}, VarOld: map[string]string{}, VarNew: map[string]string{}}
	pkgOf := func(k string) string { return k[:strings.Index(k, " ")] }
	nameOf := func(k string) string { return k[strings.Index(k, " ")+1:] }
	pkgs := map[string]bool{}
	for k := range inv.Funcs {
		pkgs[pkgOf(k)] = true
	}
	for k := range cur.Funcs {
		pkgs[pkgOf(k)] = true
	}
	var pkgList []string
	for p := range pkgs {
		pkgList = append(pkgList, p)
	}
	sort.Strings(pkgList)

	// ---- types
	for _, p := range pkgList {
		var missing, fresh []string
		for k := range inv.Types {
			if pkgOf(k) == p {
				if _, ok := cur.Types[k]; !ok && !isExported(nameOf(k)) {
					missing = append(missing, nameOf(k))
				}
			}
		}
		for k := range cur.Types {
			if pkgOf(k) == p {
				if _, ok := inv.Types[k]; !ok {
					fresh = append(fresh, nameOf(k))
				}
			}
		}
		if len(missing) == 0 || len(fresh) == 0 {
			continue
		}
		sort.Strings(missing)
		sort.Strings(fresh)
		// type strings with every renamed-candidate name blanked
		var names []string
		for _, n := range append(append([]string{}, missing...), fresh...) {
			names = append(names, regexp.QuoteMeta(p+"."+n))
		}
		re := regexp.MustCompile(`(` + strings.Join(names, "|") + `)\b`)
		norm := func(s string) string { return re.ReplaceAllString(s, "§") }
		shape := func(t InvType) string {
			var parts []string
			for _, f := range t.Fields {
				parts = append(parts, norm(f[1]))
			}
			return norm(t.Under) + "{" + strings.Join(parts, ";") + "}"
		}
		used := map[string]bool{}
		for _, m := range missing {
			var cands []string
			for _, n := range fresh {
				if !used[n] && shape(inv.Types[p+" "+m]) == shape(cur.Types[p+" "+n]) {
					cands = append(cands, n)
				}
			}
			if len(cands) == 1 {
				// and no other missing type has the same shape
				same := 0
				for _, m2 := range missing {
					if shape(inv.Types[p+" "+m2]) == shape(inv.Types[p+" "+m]) {
						same++
					}
				}
				if same == 1 {
					used[cands[0]] = true
					al.TypeOld[p+" "+cands[0]] = m
					al.TypeNew[p+" "+m] = cands[0]
					al.Notes = append(al.Notes, fmt.Sprintf("type %s.%s is addressed as %s (renamed)", p, cands[0], m))
				}
			}
		}
	}
	// map a current type string to inventory names
	var typePairs [][2]string
	for k, old := range al.TypeOld {
		typePairs = append(typePairs, [2]string{pkgOf(k) + "." + nameOf(k), pkgOf(k) + "." + old})
	}
	sort.Slice(typePairs, func(i, j int) bool { return len(typePairs[i][0]) > len(typePairs[j][0]) })
	var typeRes []*regexp.Regexp
	for _, tp := range typePairs {
		typeRes = append(typeRes, regexp.MustCompile(regexp.QuoteMeta(tp[0])+`\b`))
	}
	toOld := func(s string) string {
		for i, re := range typeRes {
			s = re.ReplaceAllString(s, typePairs[i][1])
		}
		return s
	}
	oldTypeName := func(p, n string) string {
		if o, ok := al.TypeOld[p+" "+n]; ok {
			return o
		}
		return n
	}
	// current function key in inventory terms (receiver type renamed back)
	curKeyOld := func(k string) string {
		p, n := pkgOf(k), nameOf(k)
		if i := strings.Index(n, "."); i >= 0 {
			return p + " " + oldTypeName(p, n[:i]) + n[i:]
		}
		return k
	}

	// ---- fields
	for k, ot := range inv.Types {
		if ot.Under != "struct" {
			continue
		}
		p, n := pkgOf(k), nameOf(k)
		ck := k
		if nn, ok := al.TypeNew[k]; ok {
			ck = p + " " + nn
		}
		ct, ok := cur.Types[ck]
		if !ok || ct.Under != "struct" {
			continue
		}
		oldNames, newNames := map[string]int{}, map[string]int{}
		for i, f := range ot.Fields {
			oldNames[f[0]] = i
		}
		for i, f := range ct.Fields {
			newNames[f[0]] = i
		}
		for _, f := range ot.Fields {
			if _, still := newNames[f[0]]; still {
				continue
			}
			var cands []int
			for j, g := range ct.Fields {
				if _, was := oldNames[g[0]]; was {
					continue
				}
				if toOld(g[1]) == f[1] {
					cands = append(cands, j)
				}
			}
			pick := -1
			if len(cands) == 1 {
				// unique by type among the fields that disappeared as well
				same := 0
				for _, f2 := range ot.Fields {
					if _, still := newNames[f2[0]]; !still && f2[1] == f[1] {
						same++
					}
				}
				if same == 1 {
					pick = cands[0]
				}
			}
			if pick < 0 && len(ot.Fields) == len(ct.Fields) {
				i := oldNames[f[0]]
				g := ct.Fields[i]
				if _, was := oldNames[g[0]]; !was && toOld(g[1]) == f[1] {
					pick = i // same position, same type
				}
			}
			if pick >= 0 {
				al.FieldOld[p+" "+n+"."+ct.Fields[pick][0]] = f[0]
				al.Notes = append(al.Notes, fmt.Sprintf("field %s.%s.%s is addressed as %s (renamed)", p, n, ct.Fields[pick][0], f[0]))
			}
		}
	}

	// ---- package-level variables and constants
	for _, p := range pkgList {
		var missing, fresh []string
		for k := range inv.Vars {
			if pkgOf(k) == p {
				if _, ok := cur.Vars[k]; !ok && !isExported(nameOf(k)) {
					missing = append(missing, nameOf(k))
				}
			}
		}
		for k := range cur.Vars {
			if pkgOf(k) == p {
				if _, ok := inv.Vars[k]; !ok {
					fresh = append(fresh, nameOf(k))
				}
			}
		}
		sort.Strings(missing)
		sort.Strings(fresh)
		for _, m := range missing {
			var cands []string
			for _, n := range fresh {
				if toOld(cur.Vars[p+" "+n]) == inv.Vars[p+" "+m] {
					cands = append(cands, n)
				}
			}
			same := 0
			for _, m2 := range missing {
				if inv.Vars[p+" "+m2] == inv.Vars[p+" "+m] {
					same++
				}
			}
			if len(cands) == 1 && same == 1 {
				al.VarOld[p+" "+cands[0]] = m
				al.VarNew[p+" "+m] = cands[0]
				al.Notes = append(al.Notes, fmt.Sprintf("%s.%s is addressed as %s (renamed)", p, cands[0], m))
			}
		}
	}

	// ---- functions
	for _, p := range pkgList {
		var missing, fresh []string
		curByOld := map[string]string{}
		for k := range cur.Funcs {
			if pkgOf(k) == p {
				curByOld[curKeyOld(k)] = k
			}
		}
		for k := range inv.Funcs {
			if pkgOf(k) == p {
				if _, ok := curByOld[k]; !ok {
					n := nameOf(k)
					if i := strings.LastIndex(n, "."); i >= 0 {
						n = n[i+1:]
					}
					if !isExported(n) {
						missing = append(missing, k)
					}
				}
			}
		}
		for ko, k := range curByOld {
			if _, ok := inv.Funcs[ko]; !ok {
				fresh = append(fresh, k)
			}
		}
		sort.Strings(missing)
		sort.Strings(fresh)
		recvOf := func(k string) string {
			n := nameOf(k)
			if i := strings.LastIndex(n, "."); i >= 0 {
				return n[:i]
			}
			return ""
		}
		type pair struct {
			m, n string
			sim  float64
		}
		var pairs []pair
		for _, m := range missing {
			for _, n := range fresh {
				if recvOf(m) != recvOf(curKeyOld(n)) {
					continue
				}
				if toOld(cur.Funcs[n].Sig) != inv.Funcs[m].Sig {
					continue
				}
				pairs = append(pairs, pair{m, n, jaccard(inv.Funcs[m].FP, cur.Funcs[n].FP)})
			}
		}
		sort.Slice(pairs, func(i, j int) bool {
			if pairs[i].sim != pairs[j].sim {
				return pairs[i].sim > pairs[j].sim
			}
			return pairs[i].m+pairs[i].n < pairs[j].m+pairs[j].n
		})
		usedM, usedN := map[string]bool{}, map[string]bool{}
		for i, pr := range pairs {
			if usedM[pr.m] || usedN[pr.n] || pr.sim < 0.4 {
				continue
			}
			// the runner-up for either side must be clearly worse
			clear := true
			for j, q := range pairs {
				if j != i && !usedM[q.m] && !usedN[q.n] && (q.m == pr.m || q.n == pr.n) && q.sim > pr.sim-0.15 {
					clear = false
				}
			}
			if !clear {
				continue
			}
			usedM[pr.m], usedN[pr.n] = true, true
			al.FuncOld[pr.n] = pr.m
			al.FuncNew[pr.m] = pr.n
			al.Notes = append(al.Notes, fmt.Sprintf("function %s is addressed as %s (renamed; body similarity %.2f)", pr.n, nameOf(pr.m), pr.sim))
		}
	}
	al.Known = map[string]bool{}
	for k := range cur.Funcs {
		if _, ok := inv.Funcs[curKeyOld(k)]; ok {
			al.Known[k] = true
		}
		if _, ok := al.FuncOld[k]; ok {
			al.Known[k] = true
		}
	}
	sort.Strings(al.Notes)
	return al
}

// ---- use of the aliases by the query layer -------------------------------------------------

var curAliases *Aliases

var aliasTypeRes []*regexp.Regexp
var aliasTypeRepl []string

func setAliases(al *Aliases) {
	curAliases = al
	aliasTypeRes, aliasTypeRepl = nil, nil
	if al == nil {
		return
	}
	var keys []string
	for k := range al.TypeOld {
		keys = append(keys, k)
	}
	sort.Slice(keys, func(i, j int) bool { return len(keys[i]) > len(keys[j]) })
	for _, k := range keys {
		p, n := k[:strings.Index(k, " ")], k[strings.Index(k, " ")+1:]
		aliasTypeRes = append(aliasTypeRes, regexp.MustCompile(regexp.QuoteMeta(stripMod(p)+"."+n)+`\b`))
		aliasTypeRepl = append(aliasTypeRepl, stripMod(p)+"."+al.TypeOld[k])
	}
}

// canonTypes rewrites renamed type names in a (module-stripped) display string.
func canonTypes(s string) string {
	for i, re := range aliasTypeRes {
		s = re.ReplaceAllString(s, aliasTypeRepl[i])
	}
	return s
}

// funcKeyOf returns the inventory-style key of a function object.
func funcKeyOf(obj *types.Func) string {
	if obj == nil || obj.Pkg() == nil {
		return ""
	}
	sig := obj.Type().(*types.Signature)
	if r := sig.Recv(); r != nil {
		t := r.Type()
		if p, ok := t.(*types.Pointer); ok {
			t = p.Elem()
		}
		if n, ok := t.(*types.Named); ok {
			return obj.Pkg().Path() + " " + n.Obj().Name() + "." + obj.Name()
		}
		return ""
	}
	return obj.Pkg().Path() + " " + obj.Name()
}

// oldFuncName returns the inventory name of a renamed function ("" if it is not renamed).
func oldFuncName(obj *types.Func) string {
	if curAliases == nil || obj == nil {
		return ""
	}
	if old, ok := curAliases.FuncOld[funcKeyOf(obj)]; ok {
		n := old[strings.Index(old, " ")+1:]
		if i := strings.LastIndex(n, "."); i >= 0 {
			n = n[i+1:]
		}
		return n
	}
	return ""
}

// FieldNameOf returns the name the rules know a struct field by.
func FieldNameOf(named types.Type, f *types.Var) string {
	if curAliases == nil || len(curAliases.FieldOld) == 0 || f.Pkg() == nil {
		return f.Name()
	}
	t := named
	if p, ok := t.Underlying().(*types.Pointer); ok {
		t = p.Elem()
	}
	n, ok := t.(*types.Named)
	if !ok || n.Obj().Pkg() == nil {
		return f.Name()
	}
	tn := n.Obj().Name()
	if o, ok := curAliases.TypeOld[n.Obj().Pkg().Path()+" "+tn]; ok {
		tn = o
	}
	if old, ok := curAliases.FieldOld[n.Obj().Pkg().Path()+" "+tn+"."+f.Name()]; ok {
		return old
	}
	return f.Name()
}

// BaseName is fn.Name() in inventory terms.
func BaseName(fn *ssa.Function) string {
	if obj, ok := fn.Object().(*types.Func); ok {
		if o := oldFuncName(obj); o != "" {
			return o
		}
	}
	return fn.Name()
}
