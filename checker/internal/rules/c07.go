package rules

import (
	"go/token"
	"go/types"
	"sort"
	"strconv"
	"strings"

	"golang.org/x/tools/go/ssa"

	"wharfverif/checker/internal/core"
)

func init() {
	register(&Property{
		ID: "C07",
		Explanation: `R07.1 no division by a possibly-zero quotient: in bsdiff, bsdiff/lrufile and pwr/rediff an integer divisor whose definition is a floor quotient, a subtraction or a len() needs a non-zero fact on every path (constants and ceil-division results are fine; divisors that are plain fields or parameters are recorded as assumed non-zero, never as alarms); ` +
			`R07.2 the optimizer keeps the per-file framing and copies unmapped ops verbatim; R07.3 the partition count handed to the suffix sorter is either 1 or was compared with the length of the old buffer it partitions; R12.1 (shared) every bsdiff series ends with an Eof control. ` +
			`The C10 wire-taint obligations cover the mapped target index. R07.4 pool read-seekers are positioned before they are read linearly; R07.5 every DecompressWire takes the Compression field (or getter) of a header message read from that stream, not assigned between the read and the use. NOT decided: equality of results, termination of the scanner, tuning parameters other than through R07.1/R07.3.`,
		Run: runC07,
	})
	register(&Property{
		ID: "C12",
		Explanation: `R12.1 end of series on every path: writeMessages and the empty-new-file shortcut of Do end with a Control whose Eof is true; R07.1 (shared) partition arithmetic cannot divide by zero; ` +
			`R12.2 old-offset accounting in IndividualPatchContext.Apply: the cache is positioned at OldOffset before the add phase and every success path advances OldOffset by len(Add) (when non-empty) and by Seek; ` +
			`R12.3 the read cache's slot bookkeeping: a chunk is stored in a slot whose allocation is free, the slot is marked, eviction (registered with the LRU) frees exactly the evicted chunk's slot, Reset frees all slots and purges; ` +
			`R15.3 (shared) matches reach the writer through a single sender in block order; R12.4 suffix sorting and searching only on non-empty input; R12.5 the scan-block count and scan-block size (found by role in the worker literal) are each computed from the other whenever they are set, or the other is recomputed before the workers start; R16.8 (shared) helper goroutines are waited for only after they were released; R10.swallow (shared) a failed chunk/storage call never ends in success. R12.7 a success return of getChunk that does not pass lru.Get depends only on fields that Reset assigns on every path. R12.8 a failure return of the read cache's Seek lies behind a comparison of the resulting position (not the bare offset argument, except under whence == SeekStart) or behind 'no known whence'. R04.7 (shared) rediff's path-to-index map is keyed by the path itself. R12.9 in bsdiff's whole-series Patch the loop comes round from reading a control to the next read only through Apply. NOT decided: that add+copy tile the new file, the suffix-array search, index arithmetic of the cache's Read.`,
		Run: runC12,
	})
}

// forEachDef enumerates the definitions of v that reach instruction at: phi
// operands (at the end of their predecessor, together with the outcome of the
// predecessor's own branch on that edge) and, for loads of local cells, the
// reaching stores found by a backward walk, together with the branch outcomes on
// that cell passed between the store and the use. f receives the definition, the
// point where it is made, the extra branch outcomes known for it and a matcher
// telling which operands of those outcomes denote the value. The result is the
// conjunction of f over all definitions. A cell with no reaching store on some
// path (zero value) is not acceptable; a cell written in another function (a
// variable captured by a closure) is handled flow-insensitively over its stores.
func forEachDef(v ssa.Value, at ssa.Instruction, depth int, f func(def ssa.Value, at ssa.Instruction, extra []core.Guard, isDef func(ssa.Value) bool) bool) bool {
	if depth > 6 {
		return false
	}
	v = core.StripConv(v)
	if ph, ok := v.(*ssa.Phi); ok {
		for i, e := range ph.Edges {
			pred := ph.Block().Preds[i]
			term := pred.Instrs[len(pred.Instrs)-1]
			var extra []core.Guard
			if ifi, ok := term.(*ssa.If); ok && pred.Succs[0] != pred.Succs[1] {
				extra = append(extra, core.Guard{Cond: ifi.Cond, Val: pred.Succs[0] == ph.Block(), If: ifi})
			}
			ee := core.StripConv(e)
			if !forEachDef(e, term, depth+1, func(d ssa.Value, a ssa.Instruction, inner []core.Guard, isDef func(ssa.Value) bool) bool {
				if d == ee {
					return f(d, a, append(append([]core.Guard{}, inner...), extra...), isDef)
				}
				return f(d, a, inner, isDef)
			}) {
				return false
			}
		}
		return true
	}
	same := func(x ssa.Value) bool { return sameVal(x, v) }
	ld, ok := v.(*ssa.UnOp)
	if !ok || ld.Op != token.MUL {
		return f(v, at, nil, same)
	}
	cell, ok := core.CellRoot(ld.X).(*ssa.Alloc)
	if !ok {
		return f(v, at, nil, same)
	}
	fn := at.Parent()
	isCellLoad := func(x ssa.Value) bool {
		l, ok := core.StripConv(x).(*ssa.UnOp)
		return ok && l.Op == token.MUL && core.CellRoot(l.X) == ssa.Value(cell)
	}
	foreign := false
	for _, st := range core.CellStores(cell) {
		if st.Parent() != fn {
			foreign = true
		}
	}
	if foreign {
		for _, st := range core.CellStores(cell) {
			if !forEachDef(st.Val, st, depth+1, f) {
				return false
			}
		}
		return len(core.CellStores(cell)) > 0
	}
	okAll := true
	type state struct {
		b      *ssa.BasicBlock
		idx    int
		guards []core.Guard
	}
	seen := map[*ssa.BasicBlock]bool{}
	var walk func(s state)
	walk = func(s state) {
		if !okAll {
			return
		}
		for i := s.idx; i >= 0; i-- {
			if st, ok := s.b.Instrs[i].(*ssa.Store); ok && core.CellRoot(st.Addr) == ssa.Value(cell) {
				g := append([]core.Guard{}, s.guards...)
				sv := core.StripConv(st.Val)
				if !forEachDef(st.Val, st, depth+1, func(d ssa.Value, a ssa.Instruction, inner []core.Guard, isDef func(ssa.Value) bool) bool {
					if d == sv {
						// outcomes on the cell after the store speak about this definition
						return f(d, a, append(append([]core.Guard{}, inner...), g...), func(x ssa.Value) bool { return isDef(x) || isCellLoad(x) })
					}
					return f(d, a, inner, isDef)
				}) {
					okAll = false
				}
				return
			}
		}
		if len(s.b.Preds) == 0 {
			okAll = false // no reaching store: zero value
			return
		}
		for _, p := range s.b.Preds {
			g := s.guards
			if ifi, ok := p.Instrs[len(p.Instrs)-1].(*ssa.If); ok && p.Succs[0] != p.Succs[1] {
				if bo, ok := ifi.Cond.(*ssa.BinOp); ok && (isCellLoad(bo.X) || isCellLoad(bo.Y)) {
					g = append(append([]core.Guard{}, g...), core.Guard{Cond: ifi.Cond, Val: p.Succs[0] == s.b, If: ifi})
				}
			}
			if seen[p] && len(g) == len(s.guards) {
				continue
			}
			seen[p] = true
			walk(state{p, len(p.Instrs) - 1, g})
		}
	}
	walk(state{at.Block(), idxInBlock(at) - 1, nil})
	return okAll
}

func idxInBlock(in ssa.Instruction) int {
	for i, x := range in.Block().Instrs {
		if x == in {
			return i
		}
	}
	return 0
}

// guardNonZero: the branch outcome says the matched operand is non-zero.
func guardNonZero(g core.Guard, isDef func(ssa.Value) bool) bool {
	bo, ok := g.Cond.(*ssa.BinOp)
	if !ok {
		return false
	}
	op := bo.Op
	var other ssa.Value
	switch {
	case isDef(bo.X):
		other = bo.Y
	case isDef(bo.Y):
		other = bo.X
		switch op {
		case token.LSS:
			op = token.GTR
		case token.GTR:
			op = token.LSS
		case token.LEQ:
			op = token.GEQ
		case token.GEQ:
			op = token.LEQ
		}
	default:
		return false
	}
	k, isC := core.ConstInt(other)
	if !isC {
		return false
	}
	switch {
	case op == token.NEQ && k == 0 && g.Val, op == token.EQL && k == 0 && !g.Val:
		return true
	case op == token.GTR && k >= 0 && g.Val, op == token.GEQ && k >= 1 && g.Val:
		return true
	case op == token.LSS && k <= 1 && k >= 0 && !g.Val, op == token.LEQ && k == 0 && !g.Val:
		return true
	}
	return false
}

// nonZeroAt: value v is known non-zero when control reaches `at`.
func nonZeroAt(v ssa.Value, at ssa.Instruction, depth int) bool {
	if depth > 6 {
		return false
	}
	v = core.StripConv(v)
	if k, isC := core.ConstInt(v); isC {
		return k != 0
	}
	if ph, ok := v.(*ssa.Phi); ok {
		for i, e := range ph.Edges {
			pred := ph.Block().Preds[i]
			if !nonZeroAt(e, pred.Instrs[len(pred.Instrs)-1], depth+1) {
				return false
			}
		}
		return true
	}
	for _, g := range core.Guards(at) {
		bo, ok := g.Cond.(*ssa.BinOp)
		if !ok {
			continue
		}
		var k int64
		var isC bool
		op := bo.Op
		switch {
		case sameVal(bo.X, v):
			k, isC = core.ConstInt(bo.Y)
		case sameVal(bo.Y, v):
			k, isC = core.ConstInt(bo.X)
			switch op {
			case token.LSS:
				op = token.GTR
			case token.GTR:
				op = token.LSS
			case token.LEQ:
				op = token.GEQ
			case token.GEQ:
				op = token.LEQ
			}
		default:
			continue
		}
		if !isC {
			continue
		}
		switch {
		case op == token.NEQ && k == 0 && g.Val, op == token.EQL && k == 0 && !g.Val:
			return true
		case op == token.GTR && k >= 0 && g.Val, op == token.GEQ && k >= 1 && g.Val:
			return true
		case op == token.LSS && k <= 1 && k >= 0 && !g.Val, op == token.LEQ && k == 0 && !g.Val:
			return true
		}
	}
	return false
}

// suspiciousDivisor: the origin can be zero for ordinary inputs: a floor
// quotient (not the ceil idiom (a+b-1)/b), a subtraction, or a len().
func suspiciousOrigin(o ssa.Value) (bool, string) {
	switch x := core.StripConv(o).(type) {
	case *ssa.BinOp:
		switch x.Op {
		case token.QUO:
			// ceil idiom: (a + b - 1) / b
			if sub, ok := x.X.(*ssa.BinOp); ok && sub.Op == token.SUB {
				if one, isC := core.ConstInt(sub.Y); isC && one == 1 {
					if add, ok := sub.X.(*ssa.BinOp); ok && add.Op == token.ADD && (sameVal(add.Y, x.Y) || sameVal(add.X, x.Y)) {
						return false, ""
					}
				}
			}
			return true, "floor quotient " + core.Describe(x)
		case token.SUB:
			return true, "difference " + core.Describe(x)
		}
	case *ssa.Call:
		if b, ok := x.Call.Value.(*ssa.Builtin); ok && b.Name() == "len" {
			return true, "length " + core.Describe(x)
		}
	}
	return false, ""
}

func ruleDivisors(c *core.Ctx, rule string) {
	nDiv, nSusp := 0, 0
	for _, fn := range c.P.SrcFuncs() {
		pp := core.PkgPathOf(fn)
		if !(strings.HasSuffix(pp, "/bsdiff") || strings.HasSuffix(pp, "/bsdiff/lrufile") || strings.HasSuffix(pp, "/pwr/rediff")) {
			continue
		}
		core.Instrs(fn, func(in ssa.Instruction) {
			bo, ok := in.(*ssa.BinOp)
			if !ok || (bo.Op != token.QUO && bo.Op != token.REM) || !isIntegral(bo.Type()) {
				return
			}
			if _, isC := core.ConstInt(bo.Y); isC {
				return
			}
			nDiv++
			var why []string
			susp := false
			ok2 := forEachDef(bo.Y, in, 0, func(d ssa.Value, at ssa.Instruction, guards []core.Guard, isDef func(ssa.Value) bool) bool {
				s, w := suspiciousOrigin(d)
				if !s {
					return true // constants, fields, parameters, products: assumed non-zero
				}
				susp = true
				why = append(why, w)
				if nonZeroAt(d, at, 0) {
					return true
				}
				for _, g := range guards {
					if guardNonZero(g, isDef) {
						return true
					}
				}
				return false
			})
			if !susp && ok2 {
				c.Assume("divisor " + core.Describe(bo.Y) + " in " + core.FnName(fn) + " is assumed non-zero (no floor quotient/subtraction/len reaches it)")
				return
			}
			nSusp++
			c.Check(ok2, rule, core.FnName(fn), "divisor "+core.Describe(bo.Y)+" of "+core.Describe(bo), core.InstrPos(in),
				"every definition reaching the divisor is non-zero by construction or passed a non-zero test ("+strings.Join(dedup(why), "; ")+")",
				"the divisor can be zero ("+strings.Join(dedup(why), "; ")+") and no branch outcome on the way excludes it: integer divide by zero for small inputs (e.g. a new file shorter than the partition count)")
		})
	}
	c.Floor(rule, "integer divisions with non-constant divisor", nDiv, 3)
	c.Floor(rule, "divisors with a possibly-zero definition", nSusp, 1)
}

func runC07(c *core.Ctx) {
	c.Rule("R07.1", "no division by a possibly-zero quotient")
	c.Rule("R07.2", "verbatim copy / substitution framing in Optimize")
	c.Rule("R07.3", "partition count bounded by the old buffer before suffix sorting")
	c.Rule("R12.1", "end-of-series on every path (shared)")
	ruleDivisors(c, "R07.1")
	ruleFraming(c, "R07.2", syncOpTypes(c.P, "SyncOp_"), syncOpTypes(c.P, "SyncHeader_"))
	rulePartitionBound(c, "R07.3")
	ruleEndOfSeries(c, "R12.1")
	ruleNonEmptySuffixSort(c, "R12.4")
	ruleRewindBeforeLinearRead(c, "R07.4")
	ruleDecompressAsDeclared(c, "R07.5")
}

// ruleNonEmptySuffixSort (R12.4): the suffix sorter and the suffix search index their input unconditionally
// (gosaca.ComputeSuffixArray panics on an empty text; search reads I[st] when the range has fewer than two
// entries). Every slice handed to them must be known non-empty: its bounds lo, hi are ordered by a dominating
// lo < hi, or its length is tested. "For any old ... byte string" includes the empty one.
func ruleNonEmptySuffixSort(c *core.Ctx, rule string) {
	c.Rule(rule, "suffix sorting and searching only on non-empty input")
	srch := c.P.Fn("bsdiff", "search")
	n := 0
	for _, fn := range c.P.SrcFuncs() {
		if !strings.HasSuffix(core.PkgPathOf(fn), "/bsdiff") {
			continue
		}
		if top := family(fn); top == srch {
			continue // the recursion narrows a non-empty range
		}
		core.Instrs(fn, func(in ssa.Instruction) {
			cl, ok := in.(*ssa.Call)
			if !ok {
				return
			}
			var arg ssa.Value
			what := ""
			switch {
			case strings.HasSuffix(core.CalleeName(cl), "gosaca.WorkSpace).ComputeSuffixArray") && len(cl.Call.Args) >= 2:
				arg, what = cl.Call.Args[1], "text handed to gosaca.ComputeSuffixArray"
			case srch != nil && cl.Call.StaticCallee() == srch && len(cl.Call.Args) >= 1:
				arg, what = cl.Call.Args[0], "suffix array handed to search"
			default:
				return
			}
			n++
			sl, isSlice := arg.(*ssa.Slice)
			okNE := hasGuard(in, func(g core.Guard) bool {
				isLenOfArg := func(v ssa.Value) bool {
					lc, ok := v.(*ssa.Call)
					if !ok {
						return false
					}
					b, ok := lc.Call.Value.(*ssa.Builtin)
					return ok && b.Name() == "len" && (sameVal(lc.Call.Args[0], arg) || (isSlice && sameVal(lc.Call.Args[0], sl.X) && sl.Low == nil && sl.High == nil))
				}
				if relHolds(g, token.GTR, isLenOfArg, isConstInt(0)) || relHolds(g, token.NEQ, isLenOfArg, isConstInt(0)) || relHolds(g, token.GEQ, isLenOfArg, isConstInt(1)) {
					return true
				}
				if isSlice && sl.Low != nil && sl.High != nil {
					lo, hi := sl.Low, sl.High
					isLo := func(v ssa.Value) bool { return sameVal(v, lo) || sameExpr(v, lo) }
					isHi := func(v ssa.Value) bool { return sameVal(v, hi) || sameExpr(v, hi) }
					// lo != hi is enough: the slice expression itself demands lo <= hi
					if relHolds(g, token.LSS, isLo, isHi) || relHolds(g, token.NEQ, isLo, isHi) {
						return true
					}
				}
				return false
			})
			c.Check(okNE, rule, core.FnName(fn), what+" is non-empty: "+core.Describe(arg), core.InstrPos(in),
				"dominated by a test that orders the slice bounds (lo < hi) or finds the length positive",
				"the "+what+" can be empty (an empty old file, or a partition of zero bytes): the callee indexes it unconditionally and panics - in a goroutine, which takes the process down")
		})
	}
	c.Floor(rule, "calls of the suffix sorter / search from outside", n, 2)
}

// ruleRewindBeforeLinearRead (R07.4): a ReadSeeker obtained from a pool's GetReadSeeker may be a cached handle
// at any position (fspool re-issues its open file). Before it is consumed as a plain io.Reader from "the start",
// it must be positioned: every path from the GetReadSeeker call to a use as io.Reader passes a Seek on it.
func ruleRewindBeforeLinearRead(c *core.Ctx, rule string) {
	c.Rule(rule, "pool read-seekers are positioned before they are read linearly")
	n := 0
	for _, fn := range c.P.SrcFuncs() {
		if !strings.HasPrefix(core.PkgPathOf(fn), core.Mod) || strings.HasSuffix(core.PkgPathOf(fn), "/wtest") {
			continue
		}
		core.Instrs(fn, func(in ssa.Instruction) {
			cl, ok := in.(*ssa.Call)
			if !ok {
				return
			}
			if cl.Call.IsInvoke() {
				if cl.Call.Method.Name() != "GetReadSeeker" {
					return
				}
			} else if f := cl.Call.StaticCallee(); f == nil || f.Name() != "GetReadSeeker" || f.Signature.Recv() == nil || !strings.HasSuffix(core.TypeName(f.Signature.Recv().Type()), "safeKeeper") {
				// the safekeeper's own GetReadSeeker called on the concrete type counts too (its GetReader is what a
				// whole-file copy reads through). Not ValidatingPool's pass-through reader side: nothing in the tree
				// reads through it and no property speaks of it (it has the same latent flaw, noted in DESIGN 10.15)
				return
			}
			// the reader: result #0
			var rs ssa.Value
			if refs := cl.Referrers(); refs != nil {
				for _, r := range *refs {
					if ex, ok := r.(*ssa.Extract); ok && ex.Index == 0 {
						rs = ex
					}
				}
			}
			if rs == nil {
				return
			}
			isSeek := func(x ssa.Instruction) bool {
				sc, ok := x.(*ssa.Call)
				return ok && sc.Call.IsInvoke() && sc.Call.Method.Name() == "Seek" && sameVal(sc.Call.Value, rs)
			}
			// uses as a plain io.Reader: a conversion of the value to io.Reader
			core.Instrs(fn, func(x ssa.Instruction) {
				ci, ok := x.(*ssa.ChangeInterface)
				if !ok || core.TypeName(ci.Type()) != "io.Reader" || !sameVal(ci.X, rs) {
					return
				}
				n++
				p := core.FindPath(fn, cl, isInstr(x), isSeek)
				c.Check(p == nil, rule, core.FnName(fn), "pool read-seeker is positioned before it is read as a plain reader: "+core.Describe(rs), core.InstrPos(x),
					"every path from GetReadSeeker to this use passes a Seek on the reader",
					"a ReadSeeker from a pool is read from wherever it happens to stand: pools cache and re-issue open files, so a second request for the same file yields a reader at its end and the consumer sees an empty (or partial) file").Path = c.P.PathStrings(p)
			})
		})
	}
	c.Floor(rule, "pool read-seekers consumed as plain readers", n, 1)
}

func rulePartitionBound(c *core.Ctx, rule string) {
	do := c.P.Fn("bsdiff", "DiffContext.Do")
	psa := c.P.Fn("bsdiff", "NewPSA")
	if do == nil || psa == nil {
		c.Missing(rule, "bsdiff.(*DiffContext).Do / NewPSA", "not found")
		return
	}
	n := 0
	for _, in := range allInstrs(do, func(in ssa.Instruction) bool { cl, ok := in.(*ssa.Call); return ok && cl.Call.StaticCallee() == psa }) {
		n++
		cl := in.(*ssa.Call)
		p, buf := cl.Call.Args[0], cl.Call.Args[1]
		containsLenOfBuf := func(v ssa.Value) bool {
			found := false
			var walk func(v ssa.Value, d int)
			walk = func(v ssa.Value, d int) {
				if d > 5 || found {
					return
				}
				switch x := core.StripConv(v).(type) {
				case *ssa.Call:
					if b, ok := x.Call.Value.(*ssa.Builtin); ok && b.Name() == "len" && sameVal(x.Call.Args[0], buf) {
						found = true
					}
				case *ssa.BinOp:
					walk(x.X, d+1)
					walk(x.Y, d+1)
				}
			}
			walk(v, 0)
			return found
		}
		okP := forEachDef(p, in, 0, func(d ssa.Value, at ssa.Instruction, guards []core.Guard, isDef func(ssa.Value) bool) bool {
			if k, isC := core.ConstInt(d); isC {
				return k >= 1
			}
			all := append(append([]core.Guard{}, guards...), core.Guards(at)...)
			for _, g := range all {
				bo, ok := g.Cond.(*ssa.BinOp)
				if !ok || !isDef(bo.X) || !containsLenOfBuf(bo.Y) {
					continue
				}
				if (bo.Op == token.GEQ && !g.Val) || (bo.Op == token.GTR && !g.Val) || (bo.Op == token.LSS && g.Val) || (bo.Op == token.LEQ && g.Val) {
					return true
				}
			}
			return false
		})
		c.Check(okP, rule, core.FnName(do), "partition count "+core.Describe(p)+" is 1 or bounded by len of the buffer it partitions", core.InstrPos(in),
			"every definition reaching NewPSA's partition count is the constant 1 or passed a comparison with len(old buffer)",
			"the partition count handed to NewPSA is not bounded by the length of the old buffer on every path: with more partitions than old bytes the partitions are empty and the suffix sorter panics in its goroutine")
	}
	c.Floor(rule, "NewPSA calls", n, 1)
}

func ruleEndOfSeries(c *core.Ctx, rule string) {
	wm := c.P.Fn("bsdiff", "DiffContext.writeMessages")
	do := c.P.Fn("bsdiff", "DiffContext.Do")
	if wm == nil || do == nil {
		c.Missing(rule, "bsdiff.(*DiffContext).writeMessages / Do", "not found")
		return
	}
	isEofWrite := func(fn *ssa.Function) ipred {
		return func(in ssa.Instruction) bool {
			cl, ok := in.(*ssa.Call)
			if !ok || cl.Call.IsInvoke() || cl.Call.StaticCallee() != nil || len(cl.Call.Args) != 1 {
				return false
			}
			arg := core.StripConv(cl.Call.Args[0])
			if core.TypeName(arg.Type()) != "bsdiff.Control" {
				return false
			}
			// last store to arg.Eof before the call on every path is true: the store must be in the
			// same block before the call, or dominate it with no Reset/store in between
			var last *ssa.Store
			for _, x := range in.Block().Instrs {
				if x == in {
					break
				}
				if st, ok := x.(*ssa.Store); ok {
					if b, n, ok := core.FieldOf(st.Addr); ok && n == "Eof" && sameObj(b, arg) {
						last = st
					}
				}
				if c2, ok := x.(*ssa.Call); ok {
					if sc := c2.Call.StaticCallee(); sc != nil && sc.Name() == "Reset" && len(c2.Call.Args) > 0 && sameObj(c2.Call.Args[0], arg) {
						last = nil
					}
				}
			}
			if last == nil {
				return false
			}
			b, isB := core.ConstBool(last.Val)
			return isB && b
		}
	}
	n := 0
	for _, rs := range successReturns(wm) {
		n++
		p := core.FindPath(wm, nil, isInstr(rs.Ret), isEofWrite(wm))
		c.Check(p == nil, rule, core.FnName(wm), "series ends with an Eof control", core.InstrPos(rs.Ret),
			"every success path writes a Control with Eof = true", "a bsdiff series can end without its Eof control: the patcher reads the following end marker as a control").Path = c.P.PathStrings(p)
	}
	// Do: success returns either pass writeMessages or an Eof write
	isWM := func(in ssa.Instruction) bool { cl, ok := in.(*ssa.Call); return ok && cl.Call.StaticCallee() == wm }
	for _, rs := range successReturns(do) {
		n++
		p := core.FindPath(do, nil, isInstr(rs.Ret), anyOf(isWM, isEofWrite(do)))
		c.Check(p == nil, rule, core.FnName(do), "every successful Do ends the series", core.InstrPos(rs.Ret),
			"passes writeMessages or writes the Eof control itself (empty new file)", "Do can succeed without emitting an Eof control").Path = c.P.PathStrings(p)
	}
	c.Floor(rule, "success returns of writeMessages and Do", n, 3)
}

func runC12(c *core.Ctx) {
	ruleNoSwallowedLayerErrors(c, "R10.swallow", moduleErrCallee, "/pwr", "/pwr/patcher", "/pwr/bowl", "/pwr/rediff", "/pwr/overlay", "/wire", "/wsync", "/bsdiff", "/bsdiff/lrufile", "/multiread", "/ctxcopy")
	ruleNoJoinBeforeRelease(c, "R16.8", 3, 1, "/bsdiff")
	ruleBlockLayoutCoupled(c, "R12.5")
	ruleCacheBypassIsForgotten(c, "R12.7")
	ruleCacheSeekRefusesOnlyTheImpossible(c, "R12.8")
	ruleEveryControlIsApplied(c, "R12.9")
	rulePathKeysAreOneToOne(c, "R04.7", 2, func(fn *ssa.Function) bool { return strings.HasSuffix(core.PkgPathOf(fn), "/pwr/rediff") })
	c.Rule("R12.1", "end-of-series on every path")
	c.Rule("R07.1", "no division by a possibly-zero quotient (shared)")
	c.Rule("R12.2", "old offset accounting in Apply")
	c.Rule("R12.3", "read cache slot bookkeeping")
	c.Rule("R15.3", "ordered fan-in of matches (shared)")
	ruleEndOfSeries(c, "R12.1")
	ruleDivisors(c, "R07.1")
	ruleOrderedFanIn(c, "R15.3")
	ruleNonEmptySuffixSort(c, "R12.4")

	// ---- R12.2
	apply := c.P.Fn("bsdiff", "IndividualPatchContext.Apply")
	if apply == nil {
		c.Missing("R12.2", "bsdiff.(*IndividualPatchContext).Apply", "not found")
	} else {
		isOldOff := func(v ssa.Value) bool { _, n, ok := core.FieldOf(v); return ok && n == "OldOffset" }
		isSeek := func(in ssa.Instruction) bool {
			cl, ok := in.(*ssa.Call)
			if !ok || !cl.Call.IsInvoke() || cl.Call.Method.Name() != "Seek" {
				return false
			}
			w, isW := core.ConstInt(cl.Call.Args[1])
			return isOldOff(cl.Call.Args[0]) && isW && w == 0
		}
		isCopy := callTo("io.CopyBuffer")
		for _, cp := range allInstrs(apply, isCopy) {
			p := core.FindPath(apply, nil, isInstr(cp), isSeek)
			c.Check(p == nil, "R12.2", core.FnName(apply), "cache positioned at OldOffset before the add phase", core.InstrPos(cp),
				"Seek(OldOffset, SeekStart) precedes the add copy", "the add phase can read the old file without first seeking to OldOffset: a series resumed from a saved offset adds against the wrong old bytes").Path = c.P.PathStrings(p)
		}
		adv := func(field string, lenOf bool) ipred {
			return func(in ssa.Instruction) bool {
				st, ok := in.(*ssa.Store)
				if !ok || !isOldOff(st.Addr) {
					return false
				}
				bo, ok := st.Val.(*ssa.BinOp)
				if !ok || bo.Op != token.ADD {
					return false
				}
				for _, o := range core.Origins(bo.Y) {
					v := core.StripConv(o)
					if lenOf {
						if cl, ok := v.(*ssa.Call); ok {
							if b, ok := cl.Call.Value.(*ssa.Builtin); ok && b.Name() == "len" {
								if _, n, ok := core.FieldOf(cl.Call.Args[0]); ok && n == field {
									return true
								}
							}
						}
					} else if _, n, ok := core.FieldOf(v); ok && n == field {
						return true
					}
				}
				return false
			}
		}
		n := 0
		for _, rs := range successReturns(apply) {
			n++
			p := core.FindPath(apply, nil, isInstr(rs.Ret), adv("Seek", false))
			c.Check(p == nil, "R12.2", core.FnName(apply), "OldOffset += ctrl.Seek on every success path", core.InstrPos(rs.Ret),
				"the relative seek is applied", "a control can be applied without its seek being added to OldOffset").Path = c.P.PathStrings(p)
			// add phase: when len(Add) > 0 the offset advances by it
			isLenAdd := func(v ssa.Value) bool {
				cl, ok := core.StripConv(v).(*ssa.Call)
				if !ok {
					return false
				}
				bi, ok := cl.Call.Value.(*ssa.Builtin)
				if !ok || bi.Name() != "len" {
					return false
				}
				_, nm, ok := core.FieldOf(cl.Call.Args[0])
				return ok && nm == "Add"
			}
			posLen := func(b, s *ssa.BasicBlock) bool {
				// drop the "nothing to add" outcome, however the test is written
				return outcomeEdge(b, s, token.LEQ, isLenAdd, isConstInt(0)) || outcomeEdge(b, s, token.LSS, isLenAdd, isConstInt(1))
			}
			p2 := core.FindPathSkipping(apply, nil, isInstr(rs.Ret), adv("Add", true), posLen)
			c.Check(p2 == nil, "R12.2", core.FnName(apply), "OldOffset += len(ctrl.Add) when there is an add", core.InstrPos(rs.Ret),
				"the add length advances the old offset", "the old offset is not advanced by the add length on every success path with a non-empty add").Path = c.P.PathStrings(p2)
		}
		c.Floor("R12.2", "success returns of Apply", n, 1)
		ob, _ := pathEventBounds(apply, func(in ssa.Instruction) int {
			if adv("Seek", false)(in) {
				return 1
			}
			return 0
		}, 0)
		c.Check(ob.max <= 1, "R12.2", core.FnName(apply), "seek applied at most once", apply.Pos(), fmtBounds(ob), "ctrl.Seek can be added twice ("+fmtBounds(ob)+")")
	}

	// ---- R12.3
	gc := c.P.Fn("bsdiff/lrufile", "lruFile.getChunk")
	rst := c.P.Fn("bsdiff/lrufile", "lruFile.Reset")
	nw := c.P.Fn("bsdiff/lrufile", "New")
	if gc == nil || rst == nil || nw == nil {
		c.Missing("R12.3", "bsdiff/lrufile.(*lruFile).getChunk/Reset, New", "the cache's slot bookkeeping functions were not found")
		return
	}
	// the eviction callback is whatever function New registers with the LRU: a method value or a literal
	var ev *ssa.Function
	for _, cl := range core.Calls(nw, false) {
		if strings.HasSuffix(core.CalleeName(cl), "simplelru.NewLRU") && len(cl.Common().Args) > 1 {
			for _, o := range core.Origins(cl.Common().Args[1]) {
				mc, ok := o.(*ssa.MakeClosure)
				if !ok {
					continue
				}
				w, ok := mc.Fn.(*ssa.Function)
				if !ok {
					continue
				}
				if w.Synthetic != "" {
					core.Instrs(w, func(x ssa.Instruction) {
						if cc, ok := x.(ssa.CallInstruction); ok {
							if sc := cc.Common().StaticCallee(); sc != nil && len(sc.Blocks) > 0 {
								ev = sc
							}
						}
					})
				} else {
					ev = w
				}
			}
		}
	}
	if ev == nil {
		c.Bad("R12.3", core.FnName(nw), "eviction callback registered with the LRU", nw.Pos(), "the LRU is created without an eviction callback of this package: slots are never freed")
		return
	}
	isAllocStore := func(in ssa.Instruction) (*ssa.Store, bool) {
		st, ok := in.(*ssa.Store)
		if !ok {
			return nil, false
		}
		ia, ok := st.Addr.(*ssa.IndexAddr)
		if !ok {
			return nil, false
		}
		_, n, ok := core.FieldOf(ia.X)
		return st, ok && n == "allocations"
	}
	// onEvict frees the slot carried by the evicted value
	okEv := false
	core.Instrs(ev, func(in ssa.Instruction) {
		if st, ok := isAllocStore(in); ok {
			if k, isC := core.ConstInt(st.Val); isC && k < 0 {
				idx := st.Addr.(*ssa.IndexAddr).Index
				for _, o := range core.Origins(idx) {
					if ta, ok := o.(*ssa.TypeAssert); ok && len(ev.Params) >= 2 && ta.X == ssa.Value(ev.Params[len(ev.Params)-1]) {
						okEv = true
					}
				}
			}
		}
	})
	c.Check(okEv, "R12.3", core.FnName(ev), "eviction frees the evicted chunk's slot", ev.Pos(),
		"allocations[value.(int)] = -1", "the eviction callback does not free the storage slot of the evicted chunk: the cache runs out of room or a live chunk's slot is reused")
	c.Ok("R12.3", core.FnName(nw), "eviction callback registered with the LRU", nw.Pos(), "simplelru.NewLRU(n, "+core.FnName(ev)+")")
	// getChunk: the slot stored to is one found free
	var mark *ssa.Store
	core.Instrs(gc, func(in ssa.Instruction) {
		if st, ok := isAllocStore(in); ok {
			mark = st
		}
	})
	if mark == nil {
		c.Bad("R12.3", core.FnName(gc), "slot marked as used", gc.Pos(), "getChunk no longer records which chunk occupies the chosen slot")
	} else {
		idx := mark.Addr.(*ssa.IndexAddr).Index
		// every non-constant origin of the index must be a range key guarded by allocations[k] < 0
		okFree := true
		any := false
		for _, vc := range valueCases(idx, mark) {
			if k, isC := core.ConstInt(vc.v); isC && k < 0 {
				continue // the "not found" initial value, excluded by the error return below
			}
			any = true
			// the assignment storageIndex = k happens where allocations[k] < 0 was found
			guarded := false
			for _, g := range vc.guards {
				if relHolds(g, token.LSS, anyVal, isConstInt(0)) {
					guarded = true
				}
			}
			if !guarded {
				okFree = false
			}
		}
		c.Check(any && okFree, "R12.3", core.FnName(gc), "the slot chosen for a new chunk is one whose allocation is free", core.InstrPos(mark),
			"the storage index comes from the scan for allocations[k] < 0", "the storage slot for a newly loaded chunk is not chosen among the free slots: a chunk that is still cached can be overwritten and later hits return another chunk's bytes")
		// not-found is an error before the slot is used
		negErr := false
		core.Instrs(gc, func(in ssa.Instruction) {
			if ifi, ok := in.(*ssa.If); ok {
				if bo, ok := ifi.Cond.(*ssa.BinOp); ok && bo.Op == token.LSS && sameVal(bo.X, idx) {
					if z, isC := core.ConstInt(bo.Y); isC && z == 0 && core.InstrDominates(ifi, mark) {
						negErr = true
					}
				}
			}
		})
		c.Check(negErr, "R12.3", core.FnName(gc), "no free slot is an error", core.InstrPos(mark), "storageIndex < 0 is rejected before use", "a negative storage index can be used")
		// the LRU learns about the slot
		addOK := false
		for _, cl := range core.Calls(gc, false) {
			if cl.Common().IsInvoke() && cl.Common().Method.Name() == "Add" {
				if sharesOrigin(idx, core.StripConv(cl.Common().Args[1])) {
					addOK = true
				}
			}
		}
		c.Check(addOK, "R12.3", core.FnName(gc), "the LRU maps the chunk to the chosen slot", core.InstrPos(mark), "lru.Add(chunkIndex, storageIndex)", "the LRU is not told which slot holds the chunk")
	}
	// Reset frees everything
	allFree := false
	core.Instrs(rst, func(in ssa.Instruction) {
		if st, ok := isAllocStore(in); ok {
			if k, isC := core.ConstInt(st.Val); isC && k < 0 {
				allFree = true
			}
		}
	})
	purge := false
	for _, cl := range core.Calls(rst, false) {
		if cl.Common().IsInvoke() && cl.Common().Method.Name() == "Purge" {
			purge = true
		}
	}
	c.Check(allFree && purge, "R12.3", core.FnName(rst), "Reset frees all slots and purges the LRU", rst.Pos(), "allocations[i] = -1 for all i; lru.Purge()", "Reset does not free every slot and purge the LRU: chunks of the previous file are served for the next one")
	_ = types.Typ
}

// ruleBlockLayoutCoupled is R12.5: the differ cuts the new file into numBlocks scan blocks of blockSize bytes
// (the last one takes the rest); the workers slice the new buffer by blockSize*index and treat index
// numBlocks-1 as the last block. "Matches tile each scan block exactly" needs the two numbers to describe the
// same tiling: whenever one of them is (re)defined it is computed from the other, or the other is recomputed
// from it before the workers start. The two variables are found by role in the worker literal: the one
// multiplied with the block index received from the work channel to make the slice bound, and the one the
// index is compared with. Not decided: that the arithmetic of the definition is the right one (ceil vs floor).
func ruleBlockLayoutCoupled(c *core.Ctx, rule string) {
	c.Rule(rule, "scan-block count and scan-block size are derived one from the other")
	do := c.P.Fn("bsdiff", "DiffContext.Do")
	if do == nil {
		c.Missing(rule, "bsdiff.(*DiffContext).Do", "not found")
		return
	}
	dname := core.FnName(do)
	intCell := func(v ssa.Value) *ssa.Alloc {
		ld, ok := v.(*ssa.UnOp)
		if !ok || ld.Op != token.MUL {
			return nil
		}
		a, ok := core.CellRoot(ld.X).(*ssa.Alloc)
		if !ok || a.Parent() != do {
			return nil
		}
		if b, ok := a.Type().(*types.Pointer).Elem().Underlying().(*types.Basic); !ok || b.Info()&types.IsInteger == 0 {
			return nil
		}
		return a
	}
	// operand closure of a value: the int cells of Do it loads, and whether it uses a received value
	var deps func(v ssa.Value, cells map[*ssa.Alloc]bool, recv *bool, seen map[ssa.Value]bool)
	deps = func(v ssa.Value, cells map[*ssa.Alloc]bool, recv *bool, seen map[ssa.Value]bool) {
		if v == nil || seen[v] {
			return
		}
		seen[v] = true
		if a := intCell(v); a != nil {
			cells[a] = true
			return
		}
		switch x := v.(type) {
		case *ssa.BinOp:
			deps(x.X, cells, recv, seen)
			deps(x.Y, cells, recv, seen)
		case *ssa.UnOp:
			if x.Op == token.ARROW {
				*recv = true
				return
			}
			deps(x.X, cells, recv, seen)
		case *ssa.Convert:
			deps(x.X, cells, recv, seen)
		case *ssa.ChangeType:
			deps(x.X, cells, recv, seen)
		case *ssa.Phi:
			for _, e := range x.Edges {
				deps(e, cells, recv, seen)
			}
		case *ssa.Extract:
			deps(x.Tuple, cells, recv, seen)
		case *ssa.Parameter:
			// a goroutine parameter is not the work item
		}
	}
	var sizeCell, countCell *ssa.Alloc
	var goInstrs []ssa.Instruction
	core.Instrs(do, func(in ssa.Instruction) {
		if g, ok := in.(*ssa.Go); ok {
			goInstrs = append(goInstrs, g)
		}
	})
	for _, lit := range core.WithAnons(do)[1:] {
		// the slice bound made of cell * received index
		core.Instrs(lit, func(in ssa.Instruction) {
			sl, ok := in.(*ssa.Slice)
			if !ok || sl.Low == nil {
				return
			}
			for _, o := range core.Origins(sl.Low) {
				mul, ok := o.(*ssa.BinOp)
				if !ok || mul.Op != token.MUL {
					continue
				}
				for _, pair := range [][2]ssa.Value{{mul.X, mul.Y}, {mul.Y, mul.X}} {
					a := intCell(pair[0])
					if a == nil {
						continue
					}
					cells, recv := map[*ssa.Alloc]bool{}, false
					deps(pair[1], cells, &recv, map[ssa.Value]bool{})
					if recv {
						sizeCell = a
					}
				}
			}
		})
	}
	if sizeCell != nil {
		for _, lit := range core.WithAnons(do)[1:] {
			core.Instrs(lit, func(in ssa.Instruction) {
				bo, ok := in.(*ssa.BinOp)
				if !ok {
					return
				}
				switch bo.Op {
				case token.EQL, token.NEQ, token.LSS, token.LEQ, token.GTR, token.GEQ:
				default:
					return
				}
				for _, pair := range [][2]ssa.Value{{bo.X, bo.Y}, {bo.Y, bo.X}} {
					c1, r1 := map[*ssa.Alloc]bool{}, false
					deps(pair[0], c1, &r1, map[ssa.Value]bool{})
					c2, r2 := map[*ssa.Alloc]bool{}, false
					deps(pair[1], c2, &r2, map[ssa.Value]bool{})
					if r1 && len(c1) == 0 && !r2 && len(c2) == 1 {
						for a := range c2 {
							// the worker's comparison, not the dispatcher's loop bound: the literal also slices
							if a != sizeCell && containsSliceBy(lit, sizeCell, intCell) {
								countCell = a
							}
						}
					}
				}
			})
		}
	}
	if sizeCell == nil || countCell == nil {
		c.Missing(rule, dname, "no worker literal that slices by <size variable> * <received block index> and compares the index with a <count variable>")
		return
	}
	name := map[*ssa.Alloc]string{sizeCell: sizeCell.Comment, countCell: countCell.Comment}
	other := map[*ssa.Alloc]*ssa.Alloc{sizeCell: countCell, countCell: sizeCell}
	storesTo := func(a *ssa.Alloc) ipred {
		return func(in ssa.Instruction) bool {
			st, ok := in.(*ssa.Store)
			return ok && st.Addr == ssa.Value(a)
		}
	}
	// the values a variable is given: the leaves of the stored values (phis expanded), the phis themselves,
	// and the loads of its cell. After a helper was expanded into Do the variables of the helper are SSA
	// registers, and "computed from the other variable" means "from one of the other variable's values".
	leaves := func(v ssa.Value) (out []ssa.Value, phis []ssa.Value) {
		seen := map[ssa.Value]bool{}
		var walk func(v ssa.Value)
		walk = func(v ssa.Value) {
			if seen[v] {
				return
			}
			seen[v] = true
			if phi, ok := v.(*ssa.Phi); ok {
				phis = append(phis, phi)
				for _, e := range phi.Edges {
					walk(e)
				}
				return
			}
			out = append(out, v)
		}
		walk(v)
		return
	}
	type fam struct {
		vals   map[ssa.Value]bool
		consts map[int64]bool
	}
	family := map[*ssa.Alloc]*fam{}
	for _, a := range []*ssa.Alloc{sizeCell, countCell} {
		f := &fam{vals: map[ssa.Value]bool{}, consts: map[int64]bool{}}
		for _, in := range allInstrs(do, storesTo(a)) {
			ls, ps := leaves(in.(*ssa.Store).Val)
			for _, l := range ls {
				if k, isC := core.ConstInt(l); isC {
					f.consts[k] = true
				} else {
					f.vals[l] = true
				}
			}
			for _, p := range ps {
				f.vals[p] = true
			}
		}
		family[a] = f
	}
	var closureHits func(v ssa.Value, f *fam, a *ssa.Alloc, seen map[ssa.Value]bool) bool
	closureHits = func(v ssa.Value, f *fam, a *ssa.Alloc, seen map[ssa.Value]bool) bool {
		if v == nil || seen[v] {
			return false
		}
		seen[v] = true
		if intCell(v) == a {
			return true
		}
		if f.vals[v] {
			return true
		}
		if k, isC := core.ConstInt(v); isC {
			return f.consts[k] && k > 1 // 0 and 1 are everybody's constants
		}
		switch x := v.(type) {
		case *ssa.BinOp:
			return closureHits(x.X, f, a, seen) || closureHits(x.Y, f, a, seen)
		case *ssa.UnOp:
			if x.Op == token.MUL {
				return false
			}
			return closureHits(x.X, f, a, seen)
		case *ssa.Convert:
			return closureHits(x.X, f, a, seen)
		case *ssa.ChangeType:
			return closureHits(x.X, f, a, seen)
		case *ssa.Phi:
			for _, e := range x.Edges {
				if closureHits(e, f, a, seen) {
					return true
				}
			}
		}
		return false
	}
	dependsOn := func(st *ssa.Store, a *ssa.Alloc) bool {
		ls, _ := leaves(st.Val)
		if len(ls) == 0 {
			return false
		}
		for _, l := range ls {
			// the operands of the leaf, not the leaf itself (which is in its own variable's family)
			hit := false
			switch x := l.(type) {
			case *ssa.BinOp:
				hit = closureHits(x.X, family[a], a, map[ssa.Value]bool{}) || closureHits(x.Y, family[a], a, map[ssa.Value]bool{})
			default:
				hit = closureHits(l, family[a], a, map[ssa.Value]bool{})
			}
			if !hit {
				return false
			}
		}
		return true
	}
	isEnd := func(in ssa.Instruction) bool {
		if isReturn(in) {
			return true
		}
		_, ok := in.(*ssa.Go)
		return ok
	}
	n := 0
	for _, x := range []*ssa.Alloc{sizeCell, countCell} {
		y := other[x]
		for _, in := range allInstrs(do, storesTo(x)) {
			st := in.(*ssa.Store)
			n++
			if dependsOn(st, y) {
				c.Check(true, rule, dname, "definition of "+name[x]+" #"+ordinalOf(do, in, storesTo(x)), core.InstrPos(in), "computed from "+name[y], "")
				continue
			}
			// not computed from the other: the other one (or this one) is recomputed before the workers start
			redo := func(i ssa.Instruction) bool {
				s2, ok := i.(*ssa.Store)
				if !ok || i == in {
					return false
				}
				if s2.Addr == ssa.Value(x) {
					return true
				}
				return s2.Addr == ssa.Value(y) && dependsOn(s2, x)
			}
			p := core.FindPath(do, in, isEnd, redo)
			c.Check(p == nil, rule, dname, "definition of "+name[x]+" #"+ordinalOf(do, in, storesTo(x)), core.InstrPos(in),
				"computed from "+name[y]+", or "+name[y]+" is recomputed from it before the workers start",
				"the scan-block "+name[x]+" is set without regard to "+name[y]+" and "+name[y]+" is not recomputed from it: the workers' last-block rule (index == "+name[countCell]+"-1 takes what is left) no longer matches the blocks handed out, so a block is sliced past the buffer (negative or oversized length: a panic in a goroutine) or part of the new file is never scanned").Path = c.P.PathStrings(p)
		}
	}
	c.Floor(rule, "definitions of the block size and block count", n, 2)
}

func containsSliceBy(lit *ssa.Function, cell *ssa.Alloc, intCell func(ssa.Value) *ssa.Alloc) bool {
	found := false
	core.Instrs(lit, func(in ssa.Instruction) {
		if bo, ok := in.(*ssa.BinOp); ok && bo.Op == token.MUL {
			if intCell(bo.X) == cell || intCell(bo.Y) == cell {
				found = true
			}
		}
	})
	return found
}

// ordinalOf numbers the instructions matching pred in source order, so that an obligation's key does not
// depend on line numbers.
func ordinalOf(fn *ssa.Function, in ssa.Instruction, pred ipred) string {
	var all []ssa.Instruction
	core.Instrs(fn, func(i ssa.Instruction) {
		if pred(i) {
			all = append(all, i)
		}
	})
	sort.SliceStable(all, func(i, j int) bool { return all[i].Pos() < all[j].Pos() })
	for i, x := range all {
		if x == in {
			return strconv.Itoa(i + 1)
		}
	}
	return "?"
}

// ruleDecompressAsDeclared is R07.5 (shared with C13 and C01): what follows a header in a stream is compressed
// the way that header says. Every DecompressWire(r, comp) takes comp from the Compression field of a message
// that was read from the stream, and that field has not been assigned between the read and the use (an
// optimizer that recycles the input header for its output and then decompresses "with the header's
// compression" reads its input with the output's settings).
func ruleDecompressAsDeclared(c *core.Ctx, rule string) {
	c.Rule(rule, "input streams are decompressed as their own header declares")
	n := 0
	for _, fn := range c.P.SrcFuncs() {
		if !strings.HasPrefix(core.PkgPathOf(fn), core.Mod) {
			continue
		}
		core.Instrs(fn, func(in ssa.Instruction) {
			cl, ok := in.(*ssa.Call)
			if !ok || !strings.HasSuffix(core.CalleeName(cl), "pwr.DecompressWire") || len(cl.Call.Args) != 2 {
				return
			}
			n++
			comp := cl.Call.Args[1]
			var hdr ssa.Value
			var load *ssa.UnOp
			for _, o := range []ssa.Value{core.StripConv(comp)} {
				if ld, ok := o.(*ssa.UnOp); ok && ld.Op == token.MUL {
					if b, nme, ok := core.FieldOf(ld.X); ok && nme == "Compression" {
						hdr, load = b, ld
					}
				}
			}
			if hdr == nil {
				// through the generated getter
				if gc, ok := core.StripConv(comp).(*ssa.Call); ok && strings.HasSuffix(core.CalleeName(gc), ").GetCompression") && len(gc.Call.Args) == 1 {
					hdr = gc.Call.Args[0]
				}
			}
			if hdr == nil {
				c.Bad(rule, core.FnName(fn), "compression handed to DecompressWire: "+core.Describe(comp), core.InstrPos(in),
					"the compression settings used to read the stream are not the Compression field of a header message: the input is read with settings it does not declare")
				return
			}
			// the header was read from the stream
			isRead := func(x ssa.Instruction) bool {
				rc, ok := x.(*ssa.Call)
				if !ok || !strings.HasSuffix(core.CalleeName(rc), ".ReadMessage") || len(rc.Call.Args) < 2 {
					return false
				}
				for _, o := range core.Origins(rc.Call.Args[len(rc.Call.Args)-1]) {
					if mi, ok := o.(*ssa.MakeInterface); ok && sameVal(mi.X, hdr) {
						return true
					}
					if sameVal(o, hdr) {
						return true
					}
				}
				return false
			}
			reads := allInstrs(fn, isRead)
			p := core.FindPath(fn, nil, isInstr(in), isRead)
			c.Check(len(reads) > 0 && p == nil, rule, core.FnName(fn), "the header was read from the stream before its Compression is used", core.InstrPos(in),
				"every path to DecompressWire reads the header message first", "the compression settings are taken from a header that was not (on every path) read from this stream").Path = c.P.PathStrings(p)
			// ... and not assigned in between
			isAssign := func(x ssa.Instruction) bool {
				st, ok := x.(*ssa.Store)
				if !ok {
					return false
				}
				b, nme, ok := core.FieldOf(st.Addr)
				return ok && nme == "Compression" && sameVal(b, hdr)
			}
			var bad []ssa.Instruction
			for _, st := range allInstrs(fn, isAssign) {
				for _, rd := range reads {
					var use ssa.Instruction = in
					if load != nil {
						use = load
					}
					if core.FindPath(fn, rd, isInstr(st), nil) != nil && core.FindPath(fn, st, isInstr(use), isRead) != nil {
						bad = []ssa.Instruction{rd, st, use}
					}
				}
			}
			c.Check(bad == nil, rule, core.FnName(fn), "the declared compression is used as read", core.InstrPos(in),
				"no assignment to the header's Compression between reading the header and decompressing",
				"the header's Compression is overwritten after the header was read and before the stream is decompressed: the input is decompressed with settings that are not its own (an optimizer recycling the input header for its output fails on every patch whose algorithm differs from the output's)").Path = c.P.PathStrings(bad)
		})
	}
	c.Floor(rule, "DecompressWire call sites", n, 3)
}

// ruleCacheSeekRefusesOnlyTheImpossible (R12.8): the read cache's Seek fails only for a whence it does not
// know or for a resulting position outside the file. A failure return is accepted when, among the outcomes
// it lies behind, there is (a) a comparison of something computed from the cursor/size (not the bare offset
// parameter), or (b) the 'no case matched' outcome of the whence switch (whence compared unequal with
// every constant it is compared with at all), or (c) a comparison of the bare offset under whence ==
// SeekStart (there the offset is the position). A refusal decided by the bare offset under any other
// whence turns away legal seeks (a negative offset relative to the cursor or to the end).
func ruleCacheSeekRefusesOnlyTheImpossible(c *core.Ctx, rule string) {
	c.Rule(rule, "the read cache's Seek refuses only an unknown whence or a position outside the file")
	fn := c.P.Fn("bsdiff/lrufile", "lruFile.Seek")
	if fn == nil {
		c.Missing(rule, "bsdiff/lrufile.(*lruFile).Seek", "not found")
		return
	}
	if len(fn.Params) < 3 {
		c.Missing(rule, "bsdiff/lrufile.(*lruFile).Seek", "unexpected signature")
		return
	}
	offP, whP := fn.Params[1], fn.Params[2]
	onlyParam := func(v ssa.Value, p *ssa.Parameter) bool {
		os := core.Origins(v)
		if len(os) == 0 {
			return false
		}
		for _, o := range os {
			if core.StripConv(o) != ssa.Value(p) {
				return false
			}
		}
		return true
	}
	whenceConsts := map[int64]bool{}
	core.Instrs(fn, func(in ssa.Instruction) {
		if bo, ok := in.(*ssa.BinOp); ok && (bo.Op == token.EQL || bo.Op == token.NEQ) {
			if onlyParam(bo.X, whP) {
				if k, isK := core.ConstInt(bo.Y); isK {
					whenceConsts[k] = true
				}
			}
		}
	})
	success := map[*ssa.Return]bool{}
	for _, rs := range successReturns(fn) {
		success[rs.Ret] = true
	}
	n := 0
	for _, rs := range core.Returns(fn, -1) {
		if success[rs.Ret] {
			continue
		}
		n++
		judge := func(gs []core.Guard) bool {
			posCmp, bareCmp, atStart := false, false, false
			unequal := map[int64]bool{}
			for _, g := range gs {
				bo, ok := g.Cond.(*ssa.BinOp)
				if !ok {
					continue
				}
				if onlyParam(bo.X, whP) {
					if k, isK := core.ConstInt(bo.Y); isK {
						if (bo.Op == token.EQL && !g.Val) || (bo.Op == token.NEQ && g.Val) {
							unequal[k] = true
						}
						if k == 0 && ((bo.Op == token.EQL && g.Val) || (bo.Op == token.NEQ && !g.Val)) {
							atStart = true
						}
					}
					continue
				}
				switch bo.Op {
				case token.LSS, token.LEQ, token.GTR, token.GEQ:
					if onlyParam(bo.X, offP) || onlyParam(bo.Y, offP) {
						bareCmp = true
					} else {
						posCmp = true
					}
				}
			}
			noCase := len(whenceConsts) > 0 && len(unequal) == len(whenceConsts)
			return posCmp || noCase || (bareCmp && atStart)
		}
		// a || b reaches the return over two edges, neither outcome dominating: judge every edge into the
		// returning block (and, one step further, into a block that only forwards)
		var edgeOK func(b *ssa.BasicBlock, depth int) bool
		edgeOK = func(b *ssa.BasicBlock, depth int) bool {
			if judge(core.BlockGuards(b)) {
				return true
			}
			if len(b.Preds) == 0 || depth > 3 {
				return false
			}
			for _, p := range b.Preds {
				if judge(core.EdgeGuards(p, b)) {
					continue
				}
				if _, isIf := p.Instrs[len(p.Instrs)-1].(*ssa.If); !isIf && edgeOK(p, depth+1) {
					continue
				}
				return false
			}
			return true
		}
		ok := edgeOK(rs.Ret.Block(), 0)
		c.Check(ok, rule, core.FnName(fn), "failure return decided by the whence or the resulting position", core.InstrPos(rs.Ret),
			"the refusal lies behind a test of the resulting position, or behind 'no known whence'",
			"Seek refuses a call on the strength of its bare offset argument (under a whence other than SeekStart) or of nothing at all: a negative offset relative to the cursor or to the end is a legal seek, and after the refusal the cursor is not where the caller's sequence of seeks and reads puts it")
	}
	c.Floor(rule, "failure returns of the read cache's Seek", n, 1)
}
