#!/bin/bash
# tools/mkmut.sh <prop> <name>[.benign] "<expect substring>" < python-edit-script
# Creates mutants/<prop>/<name>.patch: the edit script (python, cwd = scratch copy of /repo) is applied,
# the variant must still compile (go build ./... && go vet-free test compile), and the diff is stored.
set -eu
PROP="$1"; NAME="$2"; EXPECT="$3"
VERIF="$(cd "$(dirname "$0")/.." && pwd)"
S="$(mktemp -d /tmp/wharf-mkmut-XXXXXX)"
trap 'rm -rf "$S"' EXIT
rsync -a --exclude .git /repo/ "$S/a/"
rsync -a --exclude .git /repo/ "$S/b/"
cat > "$S/edit.py"
(cd "$S/b" && python3 "$S/edit.py")
(cd "$S/b" && gofmt -l . | grep . && { echo "gofmt complains"; exit 1; } || true)
(cd "$S/b" && GOFLAGS=-mod=mod GOPROXY=off go build ./... && GOFLAGS=-mod=mod GOPROXY=off go test -count=1 -run '^$' ./... >/dev/null) || { echo "variant does not compile"; exit 1; }
if [ "${RUNTESTS:-0}" = 1 ]; then
  (cd "$S/b" && GOFLAGS=-mod=mod GOPROXY=off go test -vet=off -count=1 ./... 2>&1 | grep -v "^ok\|no test files" || true)
fi
mkdir -p "$VERIF/mutants/$PROP"
OUT="$VERIF/mutants/$PROP/$NAME.patch"
{ echo "# property: $PROP"; echo "# expect: $EXPECT"; (cd "$S" && diff -ruN a b | sed -E 's/^(---|\+\+\+) ([ab]\/[^\t]*)\t.*/\1 \2/') || true; } > "$OUT"
if [ "$(grep -c '^@@' "$OUT")" -eq 0 ]; then echo "empty diff"; rm -f "$OUT"; exit 1; fi
echo "wrote $OUT ($(grep -c '^@@' "$OUT") hunks)"
